package c18

import (
	"bytes"
	"fmt"
	"math"
	"os"
	"path/filepath"
	"reflect"
	"strings"

	ad "github.com/pbenner/autodiff"
	st "github.com/pbenner/autodiff/statistics"

	"verifharness/c18/distcat"
	"verifharness/internal/fw"
	"verifharness/internal/prng"
)

/* config.history: the file-writing entry points of distribution configurations
 * (ConfigDistribution.ExportJson, ExportDistribution; the SaveFile option of the
 * estimators calls ExportDistribution) write the same path several times; the
 * file must hold the last configuration only.
 * -------------------------------------------------------------------------- */

var configHistoryModes = []string{"larger-then-smaller", "other-kind-then-this", "smaller-then-larger", "three-writes"}
var configExporters = []string{"ConfigDistribution.ExportJson", "ExportDistribution"}

var bigFamilies = func() (r []distcat.Family) {
	for _, f := range distcat.Families {
		n := strings.ToLower(f.Name)
		if strings.Contains(n, "mixture") || strings.Contains(n, "hmm") {
			r = append(r, f)
		}
	}
	return
}()

type histItem struct {
	in  *distcat.Instance
	cfg st.ConfigDistribution
	doc string
}

// histInstance generates an exportable instance of a family (nil when the
// family is not constructible / not exportable in a few attempts).
func histInstance(fam distcat.Family, r *prng.Rand, t ad.ScalarType) *histItem {
	for try := 0; try < 4; try++ {
		in, err := distcat.Generate(fam, r, t)
		if err != nil {
			continue
		}
		it := &histItem{in: in}
		var buf bytes.Buffer
		var werr error
		if p := fw.Call(func() {
			it.cfg = in.Dist.ExportConfig()
			werr = it.cfg.WriteJson(&buf)
		}); p != nil || werr != nil {
			continue
		}
		it.doc = buf.String()
		return it
	}
	return nil
}

// histLonger draws a configuration of one of the composite families (mixtures,
// HMMs) whose document is longer than n bytes (best effort: the longest of 8).
func histLonger(r *prng.Rand, n int) *histItem {
	var best *histItem
	for try := 0; try < 8; try++ {
		it := histInstance(bigFamilies[r.Intn(len(bigFamilies))], r, ad.Float64Type)
		if it == nil {
			continue
		}
		if best == nil || len(it.doc) > len(best.doc) {
			best = it
		}
		if len(best.doc) > n {
			break
		}
	}
	return best
}

func configHistoryCase(cs *fw.Case) {
	const monitor = "config.history"
	r := cs.R
	i := cs.Index
	nF := len(distcat.Families)
	fam := distcat.Families[i%nF]
	exporter := configExporters[(i/nF)%2]
	mode := configHistoryModes[(i/(2*nF))%4]
	viaRegistry := (i/(8*nF))%2 == 0
	t := ad.Float64Type
	tn := "Float64"
	if (i/(16*nF))%3 == 2 {
		t, tn = ad.Real64Type, "Real64"
	}
	// candidates of the family of the last object, shortest document last
	var same []*histItem
	for k := 0; k < 3; k++ {
		if it := histInstance(fam, r, t); it != nil {
			same = append(same, it)
		}
	}
	if len(same) == 0 {
		cs.Skip("instance-not-constructible")
		return
	}
	for a := range same {
		for b := a + 1; b < len(same); b++ {
			if len(same[b].doc) > len(same[a].doc) {
				same[a], same[b] = same[b], same[a]
			}
		}
	}
	last := same[len(same)-1]
	var seq []*histItem
	switch mode {
	case "larger-then-smaller":
		if len(same) < 2 {
			cs.Skip("instance-not-constructible")
			return
		}
		seq = []*histItem{same[0], last}
	case "smaller-then-larger":
		if len(same) < 2 {
			cs.Skip("instance-not-constructible")
			return
		}
		seq = []*histItem{last, same[0]}
		last = same[0]
	case "other-kind-then-this":
		seq = []*histItem{histLonger(r, len(last.doc)), last}
	default:
		seq = []*histItem{histLonger(r, len(same[0].doc)), same[0], last}
	}
	for _, it := range seq {
		if it == nil {
			cs.Skip("instance-not-constructible")
			return
		}
	}
	in := last.in
	// reference observations on the last object
	p0, pp := getParams(in.Dist)
	if pp != nil {
		cs.Skip("source-read-panics")
		return
	}
	for _, x := range p0 {
		if math.IsNaN(x) {
			cs.Skip("source-has-NaN-parameters")
			return
		}
	}
	dir := scratchDir(cs)
	defer removeScratch(dir)
	path := filepath.Join(dir, "history.json")
	w := map[string]any{"exporter": exporter, "mode": mode, "family": in.Family, "variant": in.Variant, "scalar_type": tn, "parameters": fl(p0)}
	fail := func(kind, detail string) {
		cs.Violation(sig(monitor, exporter, mode, kind), detail, w)
	}
	var lens []int
	var earlier []string
	for k, it := range seq {
		var err error
		p := fw.Call(func() {
			if exporter == "ExportDistribution" {
				err = st.ExportDistribution(path, it.in.Dist)
			} else {
				err = it.cfg.ExportJson(path)
			}
		})
		if p != nil || err != nil {
			if k == len(seq)-1 {
				msg := "panics"
				if err != nil {
					msg = err.Error()
				}
				fail("error:export", "exporting over an existing file fails: "+msg)
			} else {
				cs.Skip("source-not-exportable")
			}
			return
		}
		lens = append(lens, len(it.doc))
		if k < len(seq)-1 {
			earlier = append(earlier, it.in.Family+"/"+it.in.Variant)
		}
	}
	file, _ := os.ReadFile(path)
	w["earlier_configurations"] = earlier
	w["document_lengths"] = lens
	w["last_document"] = clip(last.doc, 1200)
	w["file"] = clip(string(file), 2500)
	w["file_length"] = len(file)
	longer := false
	for _, n := range lens[:len(lens)-1] {
		if n > lens[len(lens)-1] {
			longer = true
		}
	}
	cs.Cover(monitor + ":exporter:" + exporter)
	cs.Cover(monitor + ":mode:" + mode)
	cs.Cover(monitor + ":family:" + in.Family)
	cs.Cover("set:" + monitor + "-cells:" + exporter + "/" + mode + "/" + in.Kind)
	if longer {
		cs.Cover(monitor + ":earlier-file-longer")
		cs.Cover(monitor + ":earlier-file-longer:" + mode)
	}
	cs.Nontrivial(exporter, mode, in.Family, string(file))
	cs.Sample(map[string]any{"exporter": exporter, "mode": mode, "family": in.Family, "document_lengths": lens})
	// import with the matching function
	var dec st.ConfigurableDistribution
	var ierr error
	importer := "ImportDistribution"
	p := fw.Call(func() {
		if viaRegistry && in.Registered && in.Kind != distcat.Other {
			switch in.Kind {
			case distcat.Scalar:
				importer = "ImportScalarPdf"
				d, err := st.ImportScalarPdf(path, t)
				if d != nil {
					dec = d
				}
				ierr = err
			case distcat.Vector:
				importer = "ImportVectorPdf"
				d, err := st.ImportVectorPdf(path, t)
				if d != nil {
					dec = d
				}
				ierr = err
			default:
				importer = "ImportMatrixPdf"
				d, err := st.ImportMatrixPdf(path, t)
				if d != nil {
					dec = d
				}
				ierr = err
			}
			return
		}
		z := reflect.New(reflect.TypeOf(in.Dist).Elem()).Interface().(st.ConfigurableDistribution)
		ierr = st.ImportDistribution(path, z, t)
		dec = z
	})
	w["importer"] = importer
	cs.Cover(monitor + ":importer:" + importer)
	if p != nil {
		fail("panic:import", importer+" of the file after the last export panics: "+p.Msg+" @ "+p.Frame)
		return
	}
	if ierr != nil {
		fail("error:import", "the file written by the last export cannot be imported ("+importer+"): "+ierr.Error())
		return
	}
	if dec == nil || reflect.TypeOf(dec) != reflect.TypeOf(in.Dist) {
		fail("type", fmt.Sprintf("imported object has type %T, last exported %T", dec, in.Dist))
		return
	}
	if kind, detail := compareDist(in, dec, t, p0); kind != "" {
		fail(kind, "after writing several configurations to the same path the file does not hold the last one: "+detail)
		return
	}
	cs.Cover(monitor + ":compared")
}

// compareDist is the comparison of config.dist: parameters and LogPdf at the
// probes of the instance, with the tolerances of the configuration round trip.
func compareDist(in *distcat.Instance, dec any, t ad.ScalarType, p0 []float64) (string, string) {
	p1, pp := getParams(dec)
	if pp != nil {
		return "corrupt", "GetParameters of the imported distribution panics: " + pp.Msg + " @ " + pp.Frame
	}
	if len(p0) != len(p1) {
		return "params", fmt.Sprintf("parameter vector has length %d, original %d", len(p1), len(p0))
	}
	maxTol := 0.0
	for i := range p0 {
		if !sameFloat(p0[i], p1[i], paramTol(in, p0[i])) {
			return "params", fmt.Sprintf("parameter %d: %v, original %v (allowed difference %g)", i, p1[i], p0[i], paramTol(in, p0[i]))
		}
		if !math.IsInf(p0[i], 0) && paramTol(in, p0[i]) > maxTol {
			maxTol = paramTol(in, p0[i])
		}
	}
	eval := func(d any, pr any) (v float64, outcome string) {
		if p := fw.Call(func() {
			x, err := distcat.LogPdf(d, pr, t)
			v = x
			if err != nil {
				outcome = "error"
			}
		}); p != nil {
			outcome = "panic"
		}
		return
	}
	for i, pr := range in.Probes {
		a, ao := eval(in.Dist, pr)
		b, bo := eval(dec, pr)
		if ao != bo {
			return "logpdf", fmt.Sprintf("LogPdf at probe %d (%s): imported distribution answers %q, original %q", i, safeString(pr), bo, ao)
		}
		if ao != "" {
			continue
		}
		tol := 0.0
		if in.Transformed {
			tol = 4*float64(in.ProbeLen+1)*maxTol + kLogPdf*eps*math.Abs(a)
		}
		if in.LogPdfTol != nil {
			tol = in.LogPdfTol(p0, pr, a)
		}
		if !sameFloat(a, b, tol) {
			return "logpdf", fmt.Sprintf("LogPdf at probe %d (%s): imported distribution %v, original %v (allowed difference %g)", i, safeString(pr), b, a, tol)
		}
	}
	return "", ""
}
