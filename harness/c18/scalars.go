package c18

import (
	"encoding/json"
	"fmt"
	"os"
	"os/exec"
	"path/filepath"
	"reflect"
	"runtime/debug"
	"strings"

	ad "github.com/pbenner/autodiff"

	"verifharness/internal/fw"
	"verifharness/internal/gen"
	"verifharness/internal/prng"
)

func safeString(x any) (s string) {
	if p := fw.Call(func() { s = fmt.Sprint(x) }); p != nil {
		return "<String() panics: " + p.Msg + ">"
	}
	return clip(s, 600)
}

// scalarTarget returns a pointer suitable for json.Unmarshal and an accessor.
func scalarTarget(t gen.ElemType, dirty bool, r *prng.Rand) (any, func() ad.Scalar) {
	s := ad.NewScalar(t.T, 0)
	if dirty {
		setValue(s, t, drawNonZero(t, r))
		if t.IsReal {
			setDerivs(s, t, r.Pick([]string{"grad", "grad+hess", "zero-grad+hess"}), r)
		}
	}
	rv := reflect.ValueOf(s)
	if rv.Kind() == reflect.Ptr {
		return s, func() ad.Scalar { return s }
	}
	p := reflect.New(rv.Type())
	p.Elem().Set(rv)
	return p.Interface(), func() ad.Scalar { return p.Elem().Interface().(ad.Scalar) }
}

func scalarCase(cs *fw.Case) {
	const monitor = "json.scalar"
	r := cs.R
	i := cs.Index
	t := gen.Types[i%9]
	classes := floatClasses
	if t.IsInt {
		classes = intClasses
	}
	vc := classes[(i/9)%len(classes)]
	dc := "none"
	if t.IsReal {
		dc = derivClasses[(i/(9*len(classes)))%len(derivClasses)]
	}
	dirty := r.Chance(0.3)
	src := ad.NewScalar(t.T, 0)
	var v value
	if t.IsInt {
		x := intValue(t.Bits, vc, r)
		v = value{F: float64(x), I: x, Class: vc}
	} else {
		v = value{F: floatValue(t.Bits, vc, r), Class: vc}
	}
	setValue(src, t, v)
	setDerivs(src, t, dc, r)
	s0, p := snapScalar(src)
	if p != nil {
		cs.Skip("source-read-panics")
		return
	}
	typ := typeName(src)
	o := cmpOpts{isInt: t.IsInt, bitExact: true, derivs: true}
	run := func(dirty bool) *failure {
		data, f := marshal(src)
		if f != nil {
			return f
		}
		target, get := scalarTarget(t, dirty, r)
		if f := unmarshal(data, target); f != nil {
			return f
		}
		s1, p := snapScalar(get())
		if p != nil {
			return &failure{Kind: "corrupt", Class: "deriv:" + derivClassOf(s0), Detail: "reading the decoded scalar panics: " + p.Msg, Doc: string(data)}
		}
		if k, msg := diffElem(s0, s1, o); k != "" {
			cl := valueClassOf(s0, t)
			if k != "value" {
				cl = "deriv:" + derivClassOf(s0)
			}
			return &failure{Kind: k, Class: cl, Detail: msg, Doc: string(data)}
		}
		// behaviour under subsequent use, against a clone of the source
		var uf *failure
		fw.Call(func() {
			ref := ad.NewScalar(t.T, 0)
			setFromElem(ref, t, formatElem(s0))
			uf = compareUse(useScalar(ref, t), useScalar(get(), t))
		})
		if uf != nil {
			uf.Class, uf.Doc = "deriv:"+derivClassOf(s0), string(data)
			return uf
		}
		return nil
	}
	f := run(dirty)
	config := map[bool]string{false: "target:fresh", true: "target:dirty"}[dirty]
	cs.Cover(monitor + ":" + typ)
	cs.Cover(monitor + ":elem:" + valueClassOf(s0, t))
	cs.Cover(monitor + ":" + config)
	if t.IsReal {
		cs.Cover(monitor + ":deriv:" + derivClassOf(s0))
	}
	cs.Nontrivial(typ, s0.F, s0.I, fmt.Sprint(s0.D), fmt.Sprint(s0.H), dirty)
	cs.Sample(map[string]any{"type": typ, "value": fmt.Sprint(src), "value_class": vc, "deriv_class": dc, "target": config})
	if f == nil {
		return
	}
	if dirty {
		if cf := run(false); cf != nil && cf.key() == f.key() {
			config = "any"
		} else if dc := derivClassOf(s0); (dc == "none" || dc == "alloc-zero") && (f.Kind == "deriv" || f.Kind == "hess") {
			// the encoder writes a bare number; the decoder leaves the old slots in place
			f.Kind, f.Class = "stale-derivatives", "deriv:none"
		}
	} else {
		config = "any"
	}
	report(cs, monitor, typ, config, f, map[string]any{"type": typ, "value": s0.F, "int": s0.I, "N": s0.N, "order": s0.Order, "D": s0.D, "H": s0.H})
}

/* constant scalars: MarshalJSON is executed in a child process because an
 * unbounded recursion cannot be recovered from inside the process
 * -------------------------------------------------------------------------- */

type constType struct {
	Name string
	T    gen.ElemType
	Mk   func(v value) ad.ConstScalar
	Dec  func(data []byte) (ad.ConstScalar, error)
}

var constTypes = []constType{
	{"ConstInt8", gen.Types[0], func(v value) ad.ConstScalar { return ad.ConstInt8(v.I) }, func(d []byte) (ad.ConstScalar, error) { var c ad.ConstInt8; e := json.Unmarshal(d, &c); return c, e }},
	{"ConstInt16", gen.Types[1], func(v value) ad.ConstScalar { return ad.ConstInt16(v.I) }, func(d []byte) (ad.ConstScalar, error) { var c ad.ConstInt16; e := json.Unmarshal(d, &c); return c, e }},
	{"ConstInt32", gen.Types[2], func(v value) ad.ConstScalar { return ad.ConstInt32(v.I) }, func(d []byte) (ad.ConstScalar, error) { var c ad.ConstInt32; e := json.Unmarshal(d, &c); return c, e }},
	{"ConstInt64", gen.Types[3], func(v value) ad.ConstScalar { return ad.ConstInt64(v.I) }, func(d []byte) (ad.ConstScalar, error) { var c ad.ConstInt64; e := json.Unmarshal(d, &c); return c, e }},
	{"ConstInt", gen.Types[4], func(v value) ad.ConstScalar { return ad.ConstInt(v.I) }, func(d []byte) (ad.ConstScalar, error) { var c ad.ConstInt; e := json.Unmarshal(d, &c); return c, e }},
	{"ConstFloat32", gen.Types[5], func(v value) ad.ConstScalar { return ad.ConstFloat32(v.F) }, func(d []byte) (ad.ConstScalar, error) { var c ad.ConstFloat32; e := json.Unmarshal(d, &c); return c, e }},
	{"ConstFloat64", gen.Types[6], func(v value) ad.ConstScalar { return ad.ConstFloat64(v.F) }, func(d []byte) (ad.ConstScalar, error) { var c ad.ConstFloat64; e := json.Unmarshal(d, &c); return c, e }},
}

const childEnv = "VERIF_C18_CHILD"
const childMark = "C18CHILD-RESULT "

func constScalarCase(cs *fw.Case) {
	const monitor = "json.scalar-const"
	r := cs.R
	i := cs.Index
	ct := constTypes[i%7]
	t := ct.T
	classes := floatClasses
	if t.IsInt {
		classes = intClasses
	}
	vc := classes[(i/7)%len(classes)]
	var v value
	if t.IsInt {
		x := intValue(t.Bits, vc, r)
		v = value{F: float64(x), I: x, Class: vc}
	} else {
		v = value{F: floatValue(t.Bits, vc, r), Class: vc}
	}
	src := ct.Mk(v)
	if os.Getenv(childEnv) != "" {
		// child: marshal with a small stack limit and print the outcome
		debug.SetMaxStack(16 << 20)
		res := map[string]any{}
		if p := fw.Call(func() {
			b, err := json.Marshal(src)
			res["data"] = string(b)
			if err != nil {
				res["err"] = err.Error()
			}
		}); p != nil {
			res["panic"] = p.Msg
		}
		b, _ := json.Marshal(res)
		fmt.Println(childMark + string(b))
		return
	}
	s0, _ := snapScalar(src)
	dir := scratchDir(cs)
	defer removeScratch(dir)
	cmd := exec.Command(os.Args[0], prop, "--seed", fmt.Sprint(cs.C.Seed), "--tier", cs.C.Tier, "--only", cs.ID, "--out", filepath.Join(dir, "child.jsonl"))
	cmd.Env = append(os.Environ(), childEnv+"=1", "GOTRACEBACK=single")
	out, err := cmd.CombinedOutput()
	cs.Cover(monitor + ":" + ct.Name)
	cs.Cover(monitor + ":elem:" + valueClassOf(s0, t))
	cs.Nontrivial(ct.Name, v.F, v.I)
	cs.Sample(map[string]any{"type": ct.Name, "value": fmt.Sprint(src), "value_class": vc})
	var res struct {
		Data  string `json:"data"`
		Err   string `json:"err"`
		Panic string `json:"panic"`
	}
	found := false
	for _, line := range strings.Split(string(out), "\n") {
		if strings.HasPrefix(line, childMark) {
			found = json.Unmarshal([]byte(strings.TrimPrefix(line, childMark)), &res) == nil
		}
	}
	w := map[string]any{"type": ct.Name, "value": v.F, "int": v.I}
	switch {
	case !found && strings.Contains(string(out), "stack overflow"):
		cs.Violation(sig(monitor, ct.Name, "any", "any", "marshal:unbounded-recursion"),
			ct.Name+".MarshalJSON does not return: it calls json.Marshal on the receiver, which calls MarshalJSON again (child process died with a stack overflow)", w)
		return
	case !found:
		w["child_output"] = clip(string(out), 1500)
		cs.Violation(sig(monitor, ct.Name, "any", "any", "marshal:process-died"), fmt.Sprintf("child process running MarshalJSON died: %v", err), w)
		return
	case res.Panic != "":
		cs.Violation(sig(monitor, ct.Name, "any", valueClassOf(s0, t), "panic:marshal"), "MarshalJSON panics: "+res.Panic, w)
		return
	case res.Err != "":
		cs.Violation(sig(monitor, ct.Name, "any", valueClassOf(s0, t), "error:marshal"), "MarshalJSON: "+res.Err, w)
		return
	}
	w["document"] = res.Data
	dec, derr := ct.Dec([]byte(res.Data))
	if derr != nil {
		cs.Violation(sig(monitor, ct.Name, "any", valueClassOf(s0, t), "error:unmarshal"), "decoding the writer's own output: "+derr.Error(), w)
		return
	}
	s1, _ := snapScalar(dec)
	if k, msg := diffElem(s0, s1, cmpOpts{isInt: t.IsInt, bitExact: true}); k != "" {
		cs.Violation(sig(monitor, ct.Name, "any", valueClassOf(s0, t), k), msg, w)
	}
}
