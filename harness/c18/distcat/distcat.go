// Package distcat is a catalogue of every distribution family of
// statistics/{scalar,vector,matrix}Distribution with seeded generators of valid
// instances, probe points inside the support and the constructor arguments
// (used by the C18 configuration round trip and by the C12 input monitors).
package distcat

import (
	"fmt"
	"math"

	ad "github.com/pbenner/autodiff"
	st "github.com/pbenner/autodiff/statistics"
	"github.com/pbenner/autodiff/statistics/generic"
	md "github.com/pbenner/autodiff/statistics/matrixDistribution"
	sd "github.com/pbenner/autodiff/statistics/scalarDistribution"
	vd "github.com/pbenner/autodiff/statistics/vectorDistribution"

	"verifharness/internal/prng"
)

const (
	Scalar = "scalar"
	Vector = "vector"
	Matrix = "matrix"
	Other  = "other" // not a ScalarPdf/VectorPdf/MatrixPdf (normal inverse Wishart)
)

// Arg is one object handed to the constructor.
type Arg struct {
	Name string
	Obj  any // ad.Scalar | ad.Vector | ad.Matrix
}

// Instance is one generated distribution.
type Instance struct {
	Family      string // registry name, or the name the type exports
	Variant     string // structural class of the instance (goes into signatures)
	Registered  bool
	Kind        string
	Dist        st.ConfigurableDistribution
	Probes      []any   // ad.ConstScalar | ad.ConstVector | ad.ConstMatrix | [2]any{mu, sigma}
	Transformed bool    // parameters live on a transformed (log, normalised) scale inside the object
	Group       int     // size of the largest normalised parameter group
	SolverEps   float64 // > 0: the normalisation is an iterative solve with this stopping residual
	// LogPdfTol, when set, bounds the difference in LogPdf that an importer
	// which sees only the exported parameters cannot avoid (constants that the
	// constructor derives from its own arguments and that are not exported)
	LogPdfTol func(params []float64, probe any, f float64) float64
	ProbeLen  int // longest probe sequence
	Args      []Arg
}

type Family struct {
	Name  string
	Kind  string
	Build func(g *G) (*Instance, error)
}

// G is the generation context of one instance.
type G struct {
	R    *prng.Rand
	T    ad.ScalarType
	args []Arg
	// Boundary: draw the sentinel / boundary values of the integer parameters
	// (n = -1, 0, 1, a single component, a single state)
	Boundary bool
}

func (g *G) S(name string, v float64) ad.Scalar {
	s := ad.NewScalar(g.T, v)
	if name != "" {
		g.args = append(g.args, Arg{name, s})
	}
	return s
}

func (g *G) V(name string, vals []float64) ad.Vector {
	v := ad.AsDenseVector(g.T, ad.NewDenseFloat64Vector(vals))
	if name != "" {
		g.args = append(g.args, Arg{name, v})
	}
	return v
}

func (g *G) M(name string, vals []float64, r, c int) ad.Matrix {
	m := ad.AsDenseMatrix(g.T, ad.NewDenseFloat64Matrix(vals, r, c))
	if name != "" {
		g.args = append(g.args, Arg{name, m})
	}
	return m
}

func (g *G) pos() float64  { return g.R.LogUniform(0.05, 20) }
func (g *G) real() float64 { return g.R.Uniform(-5, 5) }
func (g *G) prob() float64 { return g.R.Uniform(0.05, 0.95) }

func (g *G) reals(n int) []float64 {
	v := make([]float64, n)
	for i := range v {
		v[i] = g.real()
	}
	return v
}

// weights draws non-negative weights (not normalised, some exactly zero when allowed).
func (g *G) weights(n int, zeros bool) []float64 {
	v := make([]float64, n)
	for i := range v {
		v[i] = g.R.Uniform(0.1, 3)
		if zeros && g.R.Chance(0.2) {
			v[i] = 0
		}
	}
	s := 0.0
	for _, x := range v {
		s += x
	}
	if s == 0 {
		v[g.R.Intn(n)] = 1
	}
	return v
}

// spd draws a symmetric positive definite matrix (row major).
func (g *G) spd(n int) []float64 {
	b := make([]float64, n*n)
	for i := range b {
		b[i] = g.R.Uniform(-1, 1)
	}
	a := make([]float64, n*n)
	for i := 0; i < n; i++ {
		for j := 0; j <= i; j++ {
			s := 0.0
			for k := 0; k < n; k++ {
				s += b[i*n+k] * b[j*n+k]
			}
			if i == j {
				s += 0.5 + g.R.Float64()
			}
			a[i*n+j], a[j*n+i] = s, s
		}
	}
	return a
}

func cs(v float64) ad.ConstScalar { return ad.ConstFloat64(v) }

func cvec(vals []float64) ad.ConstVector { return ad.NewDenseFloat64Vector(vals) }

func cmat(vals []float64, r, c int) ad.ConstMatrix { return ad.NewDenseFloat64Matrix(vals, r, c) }

func scalars(vals ...float64) []any {
	r := make([]any, len(vals))
	for i, v := range vals {
		r[i] = cs(v)
	}
	return r
}

func (g *G) inst(family, variant string, registered bool, kind string, d st.ConfigurableDistribution, err error, probes []any) (*Instance, error) {
	if err != nil {
		return nil, err
	}
	in := &Instance{Family: family, Variant: variant, Registered: registered, Kind: kind, Dist: d, Probes: probes, Args: g.args}
	for _, p := range probes {
		n := 1
		switch x := p.(type) {
		case ad.ConstVector:
			n = x.Dim()
		case ad.ConstMatrix:
			n, _ = x.Dims()
		}
		if n > in.ProbeLen {
			in.ProbeLen = n
		}
	}
	return in, nil
}

/* scalar families
 * -------------------------------------------------------------------------- */

// realScalar draws a scalar distribution supported on the whole real line
// (used as emission of HMMs / component of mixtures so that every probe is
// inside the support).
func (g *G) realScalar(name string) st.ScalarPdf {
	switch g.R.Intn(4) {
	case 0:
		d, _ := sd.NewNormalDistribution(g.S(name+".mu", g.real()), g.S(name+".sigma", g.pos()))
		return d
	case 1:
		d, _ := sd.NewCauchyDistribution(g.S(name+".mu", g.real()), g.S(name+".sigma", g.pos()))
		return d
	case 2:
		d, _ := sd.NewLaplaceDistribution(g.S(name+".mu", g.real()), g.S(name+".sigma", g.pos()))
		return d
	default:
		inner, _ := sd.NewNormalDistribution(g.S(name+".inner.mu", g.real()), g.S(name+".inner.sigma", g.pos()))
		d, _ := sd.NewPdfTranslation(inner, g.real())
		return d
	}
}

func (g *G) realProbes(n int) []any {
	p := make([]any, n)
	for i := range p {
		p[i] = cs(g.real())
	}
	return p
}

var scalarFamilies = []Family{
	{"scalar:beta distribution", Scalar, func(g *G) (*Instance, error) {
		logScale := g.R.Bool()
		d, err := sd.NewBetaDistribution(g.S("alpha", g.pos()), g.S("beta", g.pos()), logScale)
		x1, x2 := g.prob(), g.prob()
		variant := "plain"
		if logScale {
			x1, x2 = math.Log(x1), math.Log(x2)
			variant = "logScale"
		}
		return g.inst("scalar:beta distribution", variant, true, Scalar, d, err, scalars(x1, x2))
	}},
	{"scalar:binomial distribution", Scalar, func(g *G) (*Instance, error) {
		n := g.R.Range(1, 20)
		variant := "plain"
		if g.Boundary {
			n = g.R.Intn(2)
			variant = fmt.Sprintf("n=%d", n)
		}
		d, err := sd.NewBinomialDistribution(g.S("theta", g.prob()), n)
		return g.inst("scalar:binomial distribution", variant, true, Scalar, d, err, scalars(float64(g.R.Intn(n+1)), float64(g.R.Intn(n+1))))
	}},
	{"scalar:categorical distribution", Scalar, func(g *G) (*Instance, error) {
		k := g.R.Range(2, 5)
		variant := "plain"
		if g.Boundary {
			k, variant = 1, "K=1"
		}
		d, err := sd.NewCategoricalDistribution(g.V("theta", g.weights(k, false)))
		in, e := g.inst("scalar:categorical distribution", variant, true, Scalar, d, err, scalars(float64(g.R.Intn(k)), float64(g.R.Intn(k))))
		if in != nil {
			in.Transformed, in.Group = true, k
		}
		return in, e
	}},
	{"scalar:cauchy distribution", Scalar, func(g *G) (*Instance, error) {
		d, err := sd.NewCauchyDistribution(g.S("mu", g.real()), g.S("sigma", g.pos()))
		return g.inst("scalar:cauchy distribution", "plain", true, Scalar, d, err, g.realProbes(2))
	}},
	{"scalar:chi-squared distribution", Scalar, func(g *G) (*Instance, error) {
		d, err := sd.NewChiSquaredDistribution(g.T, g.pos())
		return g.inst("scalar:chi-squared distribution", "plain", false, Scalar, d, err, scalars(g.pos(), g.pos()))
	}},
	{"scalar:delta distribution", Scalar, func(g *G) (*Instance, error) {
		x := g.real()
		d, err := sd.NewDeltaDistribution(g.S("x", x))
		return g.inst("scalar:delta distribution", "plain", true, Scalar, d, err, scalars(x, g.real()))
	}},
	{"scalar:exponential distribution", Scalar, func(g *G) (*Instance, error) {
		d, err := sd.NewExponentialDistribution(g.S("lambda", g.pos()))
		return g.inst("scalar:exponential distribution", "plain", true, Scalar, d, err, scalars(g.pos(), g.pos()))
	}},
	{"scalar:gamma distribution", Scalar, func(g *G) (*Instance, error) {
		d, err := sd.NewGammaDistribution(g.S("alpha", g.pos()), g.S("beta", g.pos()))
		return g.inst("scalar:gamma distribution", "plain", true, Scalar, d, err, scalars(g.pos(), g.pos()))
	}},
	{"scalar:generalized gamma distribution", Scalar, func(g *G) (*Instance, error) {
		d, err := sd.NewGeneralizedGammaDistribution(g.S("a", g.pos()), g.S("d", g.pos()), g.S("p", g.R.Uniform(0.3, 3)))
		return g.inst("scalar:generalized gamma distribution", "plain", true, Scalar, d, err, scalars(g.pos(), g.pos()))
	}},
	{"scalar:geometric distribution", Scalar, func(g *G) (*Instance, error) {
		d, err := sd.NewGeometricDistribution(g.S("p", g.prob()))
		return g.inst("scalar:geometric distribution", "plain", true, Scalar, d, err, scalars(float64(g.R.Range(1, 9)), float64(g.R.Range(1, 9))))
	}},
	{"scalar:gev distribution", Scalar, func(g *G) (*Instance, error) {
		mu, sigma := g.real(), g.pos()
		xi := g.R.Uniform(-0.5, 0.5)
		variant := "xi!=0"
		if g.R.Chance(0.2) {
			xi, variant = 0, "xi=0"
		}
		d, err := sd.NewGevDistribution(g.S("mu", mu), g.S("sigma", sigma), g.S("xi", xi))
		return g.inst("scalar:gev distribution", variant, true, Scalar, d, err, scalars(mu+sigma*g.R.Uniform(-0.5, 1.5), mu+sigma*g.R.Uniform(-0.5, 1.5)))
	}},
	{"scalar:generalized pareto distribution", Scalar, func(g *G) (*Instance, error) {
		mu, sigma := g.real(), g.pos()
		xi := g.R.Uniform(-0.4, 0.8)
		variant := "xi!=0"
		if g.R.Chance(0.2) {
			xi, variant = 0, "xi=0"
		}
		d, err := sd.NewGParetoDistribution(g.S("mu", mu), g.S("sigma", sigma), g.S("xi", xi))
		return g.inst("scalar:generalized pareto distribution", variant, true, Scalar, d, err, scalars(mu+sigma*g.R.Uniform(0.01, 1.2), mu+sigma*g.R.Uniform(0.01, 1.2)))
	}},
	{"scalar:laplace distribution", Scalar, func(g *G) (*Instance, error) {
		d, err := sd.NewLaplaceDistribution(g.S("mu", g.real()), g.S("sigma", g.pos()))
		return g.inst("scalar:laplace distribution", "plain", true, Scalar, d, err, g.realProbes(2))
	}},
	{"scalar:negative binomial distribution", Scalar, func(g *G) (*Instance, error) {
		d, err := sd.NewNegativeBinomialDistribution(g.S("r", g.pos()), g.S("p", g.prob()))
		return g.inst("scalar:negative binomial distribution", "plain", true, Scalar, d, err, scalars(float64(g.R.Intn(9)), float64(g.R.Intn(9))))
	}},
	{"scalar:normal distribution", Scalar, func(g *G) (*Instance, error) {
		d, err := sd.NewNormalDistribution(g.S("mu", g.real()), g.S("sigma", g.pos()))
		return g.inst("scalar:normal distribution", "plain", true, Scalar, d, err, g.realProbes(2))
	}},
	{"scalar:pareto distribution", Scalar, func(g *G) (*Instance, error) {
		lambda := g.pos()
		d, err := sd.NewParetoDistribution(g.S("lambda", lambda), g.S("kappa", g.pos()))
		return g.inst("scalar:pareto distribution", "plain", true, Scalar, d, err, scalars(lambda*g.R.Uniform(1.01, 4), lambda*g.R.Uniform(1.01, 4)))
	}},
	{"scalar:poisson distribution", Scalar, func(g *G) (*Instance, error) {
		d, err := sd.NewPoissonDistribution(g.S("lambda", g.pos()))
		return g.inst("scalar:poisson distribution", "plain", true, Scalar, d, err, scalars(float64(g.R.Intn(12)), float64(g.R.Intn(12))))
	}},
	{"scalar:power law distribution", Scalar, func(g *G) (*Instance, error) {
		xmin := g.pos()
		d, err := sd.NewPowerLawDistribution(g.S("alpha", g.R.Uniform(1.2, 4)), g.S("xmin", xmin))
		return g.inst("scalar:power law distribution", "plain", true, Scalar, d, err, scalars(xmin*g.R.Uniform(1.01, 4), xmin*g.R.Uniform(1.01, 4)))
	}},
	{"scalar:pdf log transform", Scalar, func(g *G) (*Instance, error) {
		inner := g.realScalar("inner")
		d, err := sd.NewPdfLogTransform(inner, g.R.Uniform(0.01, 2))
		return g.inst("scalar:pdf log transform", "inner:"+shortName(inner), true, Scalar, d, err, scalars(g.pos(), g.pos()))
	}},
	{"scalar:pdf translation", Scalar, func(g *G) (*Instance, error) {
		inner := g.realScalar("inner")
		d, err := sd.NewPdfTranslation(inner, g.real())
		return g.inst("scalar:pdf translation", "inner:"+shortName(inner), true, Scalar, d, err, g.realProbes(2))
	}},
	{"scalar:mixture distribution", Scalar, func(g *G) (*Instance, error) {
		k := g.R.Range(2, 4)
		variant := "nested"
		if g.Boundary {
			k, variant = 1, "1-component"
		}
		edist := make([]st.ScalarPdf, k)
		for i := range edist {
			edist[i] = g.realScalar(fmt.Sprintf("edist[%d]", i))
		}
		d, err := sd.NewMixture(g.V("weights", g.weights(k, true)), edist)
		in, e := g.inst("scalar:mixture distribution", variant, true, Scalar, d, err, g.realProbes(2))
		if in != nil {
			in.Transformed, in.Group = true, k
		}
		return in, e
	}},
}

func shortName(d any) string {
	s := fmt.Sprintf("%T", d)
	for i := len(s) - 1; i >= 0; i-- {
		if s[i] == '.' {
			return s[i+1:]
		}
	}
	return s
}

/* hidden Markov model ingredients
 * -------------------------------------------------------------------------- */

type hmmSpec struct {
	n        int
	pi, tr   []float64
	stateMap []int
	nEdist   int
	start    []int
	final    []int
	variant  string
}

func (g *G) hmmSpec(minStates int) hmmSpec {
	n := g.R.Range(minStates, 4)
	if g.Boundary {
		n = 1
	}
	h := hmmSpec{n: n, pi: g.weights(n, true), tr: make([]float64, n*n)}
	for i := 0; i < n; i++ {
		copy(h.tr[i*n:], g.weights(n, true))
	}
	h.nEdist = n
	h.variant = "plain"
	if g.Boundary {
		h.variant = "single-state"
	}
	if g.R.Chance(0.3) && n >= 3 {
		h.stateMap = make([]int, n)
		for i := range h.stateMap {
			h.stateMap[i] = i % (n - 1)
		}
		h.nEdist = n - 1
	}
	if g.R.Chance(0.35) {
		// start states must keep positive initial mass, final states any subset
		for i := 0; i < n; i++ {
			if h.pi[i] > 0 && (len(h.start) == 0 || g.R.Bool()) {
				h.start = append(h.start, i)
			}
		}
		for i := 0; i < n; i++ {
			if len(h.final) == 0 && i == n-1 || g.R.Bool() {
				h.final = append(h.final, i)
			}
		}
		h.variant += "+start/final-states"
	}
	return h
}

type startFinal interface {
	SetStartStates([]int) error
	SetFinalStates([]int) error
}

func (h hmmSpec) apply(d startFinal) error {
	if h.start != nil {
		if err := d.SetStartStates(h.start); err != nil {
			return err
		}
		if err := d.SetFinalStates(h.final); err != nil {
			return err
		}
	}
	return nil
}

func (g *G) constraints(h hmmSpec) []generic.EqualityConstraint {
	// tie a few positive cells (each cell in at most one constraint)
	var cells []int
	for i := 0; i < h.n; i++ {
		for j := 0; j < h.n; j++ {
			if h.tr[i*h.n+j] > 0 {
				cells = append(cells, i, j)
			}
		}
	}
	var res []generic.EqualityConstraint
	k := 0
	for k+4 <= len(cells) && len(res) < 2 {
		take := 4
		if k+6 <= len(cells) && g.R.Bool() {
			take = 6
		}
		c, _ := generic.NewEqualityConstraint(cells[k : k+take])
		res = append(res, c)
		k += take + 2*g.R.Intn(2)
	}
	return res
}

func (g *G) tree(n int, deep bool) generic.HmmNode {
	// leaves tile [0,n)
	if n < 2 {
		return generic.NewHmmNode(generic.NewHmmLeaf(0, n))
	}
	cut := g.R.Range(1, n-1)
	if deep && n >= 3 {
		if cut < 2 {
			cut = 2
		}
		c2 := g.R.Range(1, cut-1)
		return generic.NewHmmNode(generic.NewHmmNode(generic.NewHmmLeaf(0, c2), generic.NewHmmLeaf(c2, cut)), generic.NewHmmLeaf(cut, n))
	}
	return generic.NewHmmNode(generic.NewHmmLeaf(0, cut), generic.NewHmmLeaf(cut, n))
}

func (g *G) scalarEdist(n int) []st.ScalarPdf {
	e := make([]st.ScalarPdf, n)
	for i := range e {
		e[i] = g.realScalar(fmt.Sprintf("edist[%d]", i))
	}
	return e
}

func (g *G) seqProbes() []any {
	return []any{cvec(g.reals(g.R.Range(1, 6))), cvec(g.reals(g.R.Range(2, 7)))}
}

/* vector families
 * -------------------------------------------------------------------------- */

func (g *G) vnormal(name string, n int) *vd.NormalDistribution {
	d, err := vd.NewNormalDistribution(g.V(name+".mu", g.reals(n)), g.M(name+".sigma", g.spd(n), n, n))
	if err != nil {
		panic(err)
	}
	return d
}

func (g *G) vecProbes(n int) []any {
	return []any{cvec(g.reals(n)), cvec(g.reals(n))}
}

var vectorFamilies = []Family{
	{"vector:normal distribtion", Vector, func(g *G) (*Instance, error) {
		n := g.R.Range(1, 3)
		d, err := vd.NewNormalDistribution(g.V("mu", g.reals(n)), g.M("sigma", g.spd(n), n, n))
		return g.inst("vector:normal distribtion", "plain", true, Vector, d, err, g.vecProbes(n))
	}},
	{"vector:skew normal distribtion", Vector, func(g *G) (*Instance, error) {
		n := g.R.Range(1, 3)
		sc := make([]float64, n)
		for i := range sc {
			sc[i] = g.R.Uniform(0.5, 2)
		}
		d, err := vd.NewSkewNormalDistribution(g.V("xi", g.reals(n)), g.M("omega", g.spd(n), n, n), g.V("alpha", g.reals(n)), g.V("scale", sc))
		return g.inst("vector:skew normal distribtion", "plain", true, Vector, d, err, g.vecProbes(n))
	}},
	{"vector:t distribtion", Vector, func(g *G) (*Instance, error) {
		n := g.R.Range(1, 3)
		d, err := vd.NewTDistribution(g.S("nu", g.R.Uniform(1, 9)), g.V("mu", g.reals(n)), g.M("sigma", g.spd(n), n, n))
		return g.inst("vector:t distribtion", "plain", false, Vector, d, err, g.vecProbes(n))
	}},
	{"vector:logistic regression", Vector, func(g *G) (*Instance, error) {
		n := g.R.Range(2, 4)
		if g.T != ad.Float64Type {
			return nil, fmt.Errorf("float64 only")
		}
		d, err := vd.NewLogisticRegression(g.V("theta", g.reals(n)))
		return g.inst("vector:logistic regression", "plain", false, Vector, d, err, g.vecProbes(n-1))
	}},
	{"vector:scalar id", Vector, func(g *G) (*Instance, error) {
		n := g.R.Range(1, 3)
		d, err := vd.NewScalarId(g.scalarEdist(n)...)
		return g.inst("vector:scalar id", "nested", true, Vector, d, err, g.vecProbes(n))
	}},
	{"vector:scalar iid", Vector, func(g *G) (*Instance, error) {
		n := g.R.Range(1, 4)
		variant := "nested"
		probes := g.vecProbes(n)
		if g.Boundary {
			n = g.R.Range(-1, 1)
			variant = fmt.Sprintf("n=%d", n)
			if n == -1 { // variable length: any vector is in the domain
				probes = []any{cvec(g.reals(g.R.Range(0, 4))), cvec(g.reals(g.R.Range(1, 5)))}
			} else {
				probes = g.vecProbes(n)
			}
		}
		d, err := vd.NewScalarIid(g.realScalar("distribution"), n)
		return g.inst("vector:scalar iid", variant, true, Vector, d, err, probes)
	}},
	{"vector:vector id", Vector, func(g *G) (*Instance, error) {
		n1, n2 := g.R.Range(1, 2), g.R.Range(1, 2)
		d, err := vd.NewVectorId(g.vnormal("distributions[0]", n1), g.vnormal("distributions[1]", n2))
		return g.inst("vector:vector id", "nested", true, Vector, d, err, g.vecProbes(n1+n2))
	}},
	{"vector:vector iid", Vector, func(g *G) (*Instance, error) {
		n, k := g.R.Range(1, 2), g.R.Range(1, 3)
		variant := "nested"
		if g.Boundary {
			k = g.R.Intn(2)
			variant = fmt.Sprintf("n=%d*dim", k)
		}
		d, err := vd.NewVectorIid(g.vnormal("distribution", n), n*k)
		return g.inst("vector:vector iid", variant, true, Vector, d, err, g.vecProbes(n*k))
	}},
	{"vector:mixture distribution", Vector, func(g *G) (*Instance, error) {
		k, n := g.R.Range(2, 3), g.R.Range(1, 2)
		edist := make([]st.VectorPdf, k)
		variant := "of-normal"
		if g.Boundary && g.R.Bool() {
			// nested variable-length wrappers
			for i := range edist {
				d, _ := vd.NewScalarIid(g.realScalar(fmt.Sprintf("edist[%d].distribution", i)), -1)
				edist[i] = d
			}
			d, err := vd.NewMixture(g.V("weights", g.weights(k, true)), edist)
			in, e := g.inst("vector:mixture distribution", "of-scalar-iid(n=-1)", true, Vector, d, err, []any{cvec(g.reals(g.R.Range(0, 4))), cvec(g.reals(g.R.Range(1, 5)))})
			if in != nil {
				in.Transformed, in.Group = true, k
			}
			return in, e
		}
		if g.Boundary {
			k = 1
			edist = edist[:1]
		}
		for i := range edist {
			if g.R.Chance(0.3) {
				d, _ := vd.NewScalarId(g.scalarEdist(n)...)
				edist[i] = d
				variant = "of-wrapped"
			} else {
				edist[i] = g.vnormal(fmt.Sprintf("edist[%d]", i), n)
			}
		}
		if g.Boundary {
			variant += ",1-component"
		}
		d, err := vd.NewMixture(g.V("weights", g.weights(k, true)), edist)
		in, e := g.inst("vector:mixture distribution", variant, true, Vector, d, err, g.vecProbes(n))
		if in != nil {
			in.Transformed, in.Group = true, k
		}
		return in, e
	}},
	{"vector:hmm distribution", Vector, func(g *G) (*Instance, error) {
		h := g.hmmSpec(2)
		d, err := vd.NewHmm(g.V("pi", h.pi), g.M("tr", h.tr, h.n, h.n), h.stateMap, g.scalarEdist(h.nEdist))
		if err == nil {
			err = h.apply(d)
		}
		in, e := g.inst("vector:hmm distribution", h.variant, true, Vector, d, err, g.seqProbes())
		if in != nil {
			in.Transformed, in.Group = true, h.n
		}
		return in, e
	}},
	{"vector:constrained hmm distribution", Vector, func(g *G) (*Instance, error) {
		h := g.hmmSpec(2)
		d, err := vd.NewConstrainedHmm(g.V("pi", h.pi), g.M("tr", h.tr, h.n, h.n), h.stateMap, g.scalarEdist(h.nEdist), g.constraints(h))
		if err == nil {
			err = h.apply(d)
		}
		in, e := g.inst("vector:constrained hmm distribution", h.variant, true, Vector, d, err, g.seqProbes())
		if in != nil {
			in.Transformed, in.Group, in.SolverEps = true, h.n*h.n, 1e-8
		}
		return in, e
	}},
	{"vector:hierarchical hmm distribution", Vector, func(g *G) (*Instance, error) {
		h := g.hmmSpec(2)
		deep := g.R.Chance(0.4) && h.n >= 3
		d, err := vd.NewHierarchicalHmm(g.V("pi", h.pi), g.M("tr", h.tr, h.n, h.n), h.stateMap, g.scalarEdist(h.nEdist), g.tree(h.n, deep))
		if err == nil {
			err = h.apply(d)
		}
		variant := h.variant + ",tree-depth1"
		if deep {
			variant = h.variant + ",tree-depth2"
		}
		in, e := g.inst("vector:hierarchical hmm distribution", variant, true, Vector, d, err, g.seqProbes())
		if in != nil {
			in.Transformed, in.Group = true, h.n*h.n
		}
		return in, e
	}},
}

/* matrix families
 * -------------------------------------------------------------------------- */

func (g *G) vecEdist(k, n int) []st.VectorPdf {
	e := make([]st.VectorPdf, k)
	for i := range e {
		if g.R.Chance(0.3) {
			d, _ := vd.NewScalarId(g.scalarEdist(n)...)
			e[i] = d
		} else {
			e[i] = g.vnormal(fmt.Sprintf("edist[%d]", i), n)
		}
	}
	return e
}

func (g *G) matProbes(rows, cols int) []any {
	return []any{cmat(g.reals(rows*cols), rows, cols), cmat(g.reals(rows*cols), rows, cols)}
}

func (g *G) matSeqProbes(cols int) []any {
	r1, r2 := g.R.Range(1, 5), g.R.Range(2, 6)
	return []any{cmat(g.reals(r1*cols), r1, cols), cmat(g.reals(r2*cols), r2, cols)}
}

var matrixFamilies = []Family{
	{"matrix:inverse wishart distribtion", Matrix, func(g *G) (*Instance, error) {
		n := g.R.Range(1, 3)
		d, err := md.NewInverseWishartDistribution(g.S("nu", float64(n)+g.R.Uniform(0.5, 5)), g.M("s", g.spd(n), n, n))
		return g.inst("matrix:inverse wishart distribtion", "plain", true, Matrix, d, err, []any{cmat(g.spd(n), n, n), cmat(g.spd(n), n, n)})
	}},
	{"matrix:normal inverse wishart distribtion", Other, func(g *G) (*Instance, error) {
		n := g.R.Range(1, 3)
		d, err := md.NewNormalIWishartDistribution(g.S("kappa", g.pos()), g.S("nu", float64(n)+g.R.Uniform(0.5, 5)), g.V("mu", g.reals(n)), g.M("lambda", g.spd(n), n, n))
		pr := func() any {
			return [2]any{ad.AsDenseVector(g.T, ad.NewDenseFloat64Vector(g.reals(n))), ad.AsDenseMatrix(g.T, ad.NewDenseFloat64Matrix(g.spd(n), n, n))}
		}
		return g.inst("matrix:normal inverse wishart distribtion", "plain", false, Other, d, err, []any{pr(), pr()})
	}},
	{"matrix:vector id", Matrix, func(g *G) (*Instance, error) {
		k, n := g.R.Range(1, 3), g.R.Range(1, 2)
		d, err := md.NewVectorId(g.vecEdist(k, n)...)
		return g.inst("matrix:vector id", "nested", true, Matrix, d, err, g.matProbes(k, n))
	}},
	{"matrix:vector iid", Matrix, func(g *G) (*Instance, error) {
		n := g.R.Range(1, 2)
		k := n * g.R.Range(1, 3) // the constructor wants the row count to be a multiple of the column count
		variant := "nested"
		if g.Boundary {
			k = n * g.R.Intn(2)
			variant = fmt.Sprintf("rows=%d*dim", k/n)
		}
		d, err := md.NewVectorIid(g.vnormal("distribution", n), k)
		return g.inst("matrix:vector iid", variant, true, Matrix, d, err, g.matProbes(k, n))
	}},
	{"matrix:mixture distribution", Matrix, func(g *G) (*Instance, error) {
		k, rows, n := g.R.Range(2, 3), g.R.Range(1, 2), g.R.Range(1, 2)
		variantM := "of-wrapped"
		if g.Boundary {
			k, variantM = 1, "of-wrapped,1-component"
		}
		edist := make([]st.MatrixPdf, k)
		for i := range edist {
			d, err := md.NewVectorId(g.vecEdist(rows, n)...)
			if err != nil {
				return nil, err
			}
			edist[i] = d
		}
		d, err := md.NewMixture(g.V("weights", g.weights(k, true)), edist)
		in, e := g.inst("matrix:mixture distribution", variantM, true, Matrix, d, err, g.matProbes(rows, n))
		if in != nil {
			in.Transformed, in.Group = true, k
		}
		return in, e
	}},
	{"matrix:hmm distribution", Matrix, func(g *G) (*Instance, error) {
		h := g.hmmSpec(2)
		n := g.R.Range(1, 2)
		d, err := md.NewHmm(g.V("pi", h.pi), g.M("tr", h.tr, h.n, h.n), h.stateMap, g.vecEdist(h.nEdist, n))
		if err == nil {
			err = h.apply(d)
		}
		in, e := g.inst("matrix:hmm distribution", h.variant, true, Matrix, d, err, g.matSeqProbes(n))
		if in != nil {
			in.Transformed, in.Group = true, h.n
		}
		return in, e
	}},
	{"matrix:constrained hmm distribution", Matrix, func(g *G) (*Instance, error) {
		h := g.hmmSpec(2)
		n := g.R.Range(1, 2)
		d, err := md.NewConstrainedHmm(g.V("pi", h.pi), g.M("tr", h.tr, h.n, h.n), h.stateMap, g.vecEdist(h.nEdist, n), g.constraints(h))
		if err == nil {
			err = h.apply(d)
		}
		in, e := g.inst("matrix:constrained hmm distribution", h.variant, false, Matrix, d, err, g.matSeqProbes(n))
		if in != nil {
			in.Transformed, in.Group, in.SolverEps = true, h.n*h.n, 1e-8
		}
		return in, e
	}},
	{"matrix:hierarchical hmm distribution", Matrix, func(g *G) (*Instance, error) {
		h := g.hmmSpec(2)
		n := g.R.Range(1, 2)
		deep := g.R.Chance(0.4) && h.n >= 3
		d, err := md.NewHierarchicalHmm(g.V("pi", h.pi), g.M("tr", h.tr, h.n, h.n), h.stateMap, g.vecEdist(h.nEdist, n), g.tree(h.n, deep))
		if err == nil {
			err = h.apply(d)
		}
		variant := h.variant + ",tree-depth1"
		if deep {
			variant = h.variant + ",tree-depth2"
		}
		in, e := g.inst("matrix:hierarchical hmm distribution", variant, true, Matrix, d, err, g.matSeqProbes(n))
		if in != nil {
			in.Transformed, in.Group = true, h.n*h.n
		}
		return in, e
	}},
	{"matrix:shape hmm distribution", Matrix, func(g *G) (*Instance, error) {
		h := g.hmmSpec(2)
		rows, n := g.R.Range(1, 3), g.R.Range(1, 2)
		edist := make([]st.MatrixPdf, h.nEdist)
		for i := range edist {
			d, err := md.NewVectorId(g.vecEdist(rows, n)...)
			if err != nil {
				return nil, err
			}
			edist[i] = d
		}
		d, err := md.NewShapeHmm(g.V("pi", h.pi), g.M("tr", h.tr, h.n, h.n), h.stateMap, edist)
		if err == nil {
			err = h.apply(d)
		}
		in, e := g.inst("matrix:shape hmm distribution", h.variant, true, Matrix, d, err, g.matSeqProbes(n))
		if in != nil {
			in.Transformed, in.Group = true, h.n
		}
		return in, e
	}},
}

// Families lists every family: scalar, vector, matrix.
var Families = append(append(append([]Family{}, scalarFamilies...), vectorFamilies...), matrixFamilies...)

// Generate builds instance number k of family f; a panic of a constructor is
// returned as an error.
func Generate(f Family, r *prng.Rand, t ad.ScalarType) (in *Instance, err error) {
	defer func() {
		if p := recover(); p != nil {
			in, err = nil, fmt.Errorf("constructor panics: %v", p)
		}
	}()
	g := &G{R: r, T: t}
	g.Boundary = r.Chance(0.3)
	return f.Build(g)
}

/* evaluation
 * -------------------------------------------------------------------------- */

// LogPdf evaluates d at a probe; returns the value (NaN/±Inf possible) and the error.
func LogPdf(d any, probe any, t ad.ScalarType) (float64, error) {
	r := ad.NewScalar(t, 0)
	var err error
	switch x := probe.(type) {
	case ad.ConstScalar:
		err = d.(st.ScalarPdf).LogPdf(r, x)
	case ad.ConstVector:
		err = d.(st.VectorPdf).LogPdf(r, x)
	case ad.ConstMatrix:
		err = d.(st.MatrixPdf).LogPdf(r, x)
	case [2]any:
		err = d.(*md.NormalIWishartDistribution).LogPdf(r, x[0].(ad.Vector), x[1].(ad.Matrix))
	default:
		return 0, fmt.Errorf("unknown probe %T", probe)
	}
	return r.GetFloat64(), err
}

// Import reads the configuration back: through the registry for registered
// families, through ImportConfig on a zero value of the same type otherwise.
func Import(in *Instance, config st.ConfigDistribution, t ad.ScalarType, newZero func() st.ConfigurableDistribution) (st.ConfigurableDistribution, error) {
	if in.Registered {
		switch in.Kind {
		case Scalar:
			d, err := st.ImportScalarPdfConfig(config, t)
			if d == nil {
				return nil, err
			}
			return d, err
		case Vector:
			d, err := st.ImportVectorPdfConfig(config, t)
			if d == nil {
				return nil, err
			}
			return d, err
		case Matrix:
			d, err := st.ImportMatrixPdfConfig(config, t)
			if d == nil {
				return nil, err
			}
			return d, err
		}
	}
	z := newZero()
	if err := z.ImportConfig(config, t); err != nil {
		return nil, err
	}
	return z, nil
}
