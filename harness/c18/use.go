package c18

import (
	"fmt"
	"strconv"
	"strings"

	ad "github.com/pbenner/autodiff"

	"verifharness/internal/fw"
	"verifharness/internal/gen"
	"verifharness/internal/prng"
	"verifharness/internal/snap"
)

/* behaviour under subsequent use: "observably equal to the original" includes
 * what the decoded object does when it is used - as operand and as receiver of
 * the container operations.  The same battery runs on the decoded object and
 * on a reference object built from the source snapshot; every step ends in a
 * value (digest) or a panic and the two traces must agree.
 * -------------------------------------------------------------------------- */

type useStep struct {
	Name string
	Out  string
}

func digestElem(b *strings.Builder, e snap.Elem, isInt bool) {
	if isInt {
		b.WriteString(strconv.FormatInt(e.I, 10))
	} else {
		b.WriteString(strconv.FormatFloat(e.F, 'g', -1, 64))
	}
	// derivative slots: non-zero ones only (missing slots read as zero)
	if e.Order >= 1 {
		for i, x := range e.D {
			if x != 0 {
				fmt.Fprintf(b, "'%d:%s", i, strconv.FormatFloat(x, 'g', -1, 64))
			}
		}
	}
	if e.Order >= 2 {
		for i, x := range e.H {
			if x != 0 {
				fmt.Fprintf(b, "\"%d:%s", i, strconv.FormatFloat(x, 'g', -1, 64))
			}
		}
	}
	b.WriteByte(' ')
}

func digest(x any, isInt bool) string {
	var b strings.Builder
	switch o := x.(type) {
	case ad.ConstMatrix:
		s := snap.Matrix(o)
		fmt.Fprintf(&b, "%dx%d: ", s.R, s.C)
		for _, e := range s.E {
			digestElem(&b, e, isInt)
		}
	case ad.ConstVector:
		s := snap.Vector(o)
		fmt.Fprintf(&b, "%d: ", s.Dim)
		for _, e := range s.E {
			digestElem(&b, e, isInt)
		}
	case ad.ConstScalar:
		digestElem(&b, snap.Scalar(o), isInt)
	}
	return b.String()
}

func step(trace *[]useStep, name string, f func() string) {
	out := ""
	if p := fw.Call(func() { out = f() }); p != nil {
		out = "panic"
	}
	*trace = append(*trace, useStep{name, out})
}

func helperVector(t gen.ElemType, n int, r *prng.Rand) ad.Vector {
	v := gen.NullVector(t, gen.Dense, n)
	for i := 0; i < n; i++ {
		v.At(i).SetFloat64(t.Value(r))
	}
	return v
}

func helperMatrix(t gen.ElemType, rows, cols int, r *prng.Rand) ad.Matrix {
	m := gen.NullMatrix(t, gen.Dense, rows, cols)
	for i := 0; i < rows; i++ {
		for j := 0; j < cols; j++ {
			m.At(i, j).SetFloat64(t.Value(r))
		}
	}
	return m
}

func useVector(v ad.Vector, t gen.ElemType, seed uint64) []useStep {
	r := prng.New(seed)
	n := 0
	fw.Call(func() { n = v.Dim() })
	if n < 0 || n > 64 {
		return nil
	}
	other := helperVector(t, n, r)
	a := helperMatrix(t, 2, n, r)
	b := helperMatrix(t, n, 2, r)
	y := helperVector(t, 2, r)
	var tr []useStep
	d := func(x any) string { return digest(x, t.IsInt) }
	step(&tr, "CloneVector", func() string { return d(v.CloneVector()) })
	step(&tr, "Slice", func() string { return d(v.Slice(0, (n+1)/2)) })
	step(&tr, "iterate", func() string {
		var sb strings.Builder
		k := 0
		for it := v.ConstIterator(); it.Ok() && k <= n+2; it.Next() {
			fmt.Fprintf(&sb, "%d:%v ", it.Index(), it.GetConst().GetFloat64())
			k++
		}
		return sb.String()
	})
	step(&tr, "operand:VaddV", func() string { return d(gen.NullVector(t, gen.Dense, n).VaddV(v, other)) })
	step(&tr, "operand:VdotV", func() string { return d(ad.NewScalar(t.T, 0).VdotV(v, other)) })
	step(&tr, "operand:MdotV", func() string { return d(gen.NullVector(t, gen.Dense, 2).MdotV(a, v)) })
	step(&tr, "operand:VdotM", func() string { return d(gen.NullVector(t, gen.Dense, 2).VdotM(v, b)) })
	step(&tr, "receiver:VaddV", func() string { v.VaddV(v, other); return d(v) })
	step(&tr, "receiver:VmulS", func() string { v.VmulS(v, ad.NewScalar(t.T, 2)); return d(v) })
	step(&tr, "receiver:MdotV", func() string { v.MdotV(b, y); return d(v) })
	step(&tr, "receiver:VdotM", func() string { v.VdotM(y, a); return d(v) })
	step(&tr, "receiver:Set", func() string { v.Set(other); return d(v) })
	return tr
}

func useMatrix(m ad.Matrix, t gen.ElemType, seed uint64) []useStep {
	r := prng.New(seed)
	rows, cols := 0, 0
	fw.Call(func() { rows, cols = m.Dims() })
	if rows < 0 || cols < 0 || rows > 32 || cols > 32 {
		return nil
	}
	other := helperMatrix(t, rows, cols, r)
	a := helperMatrix(t, rows, 2, r)
	b := helperMatrix(t, 2, cols, r)
	x := helperVector(t, cols, r)
	u := helperVector(t, rows, r)
	var tr []useStep
	d := func(x any) string { return digest(x, t.IsInt) }
	step(&tr, "CloneMatrix", func() string { return d(m.CloneMatrix()) })
	step(&tr, "T", func() string { return d(m.T()) })
	step(&tr, "Slice", func() string { return d(m.Slice(0, (rows+1)/2, 0, (cols+1)/2)) })
	step(&tr, "iterate", func() string {
		var sb strings.Builder
		k := 0
		for it := m.ConstIterator(); it.Ok() && k <= rows*cols+2; it.Next() {
			i, j := it.Index()
			fmt.Fprintf(&sb, "%d,%d:%v ", i, j, it.GetConst().GetFloat64())
			k++
		}
		return sb.String()
	})
	if rows > 0 && cols > 0 {
		step(&tr, "Row/Col", func() string { return d(m.Row(rows-1)) + "|" + d(m.Col(cols-1)) })
	}
	step(&tr, "operand:MaddM", func() string { return d(gen.NullMatrix(t, gen.Dense, rows, cols).MaddM(m, other)) })
	step(&tr, "operand:MdotM", func() string { return d(gen.NullMatrix(t, gen.Dense, rows, rows).MdotM(m, m.T())) })
	step(&tr, "operand:MdotV", func() string { return d(gen.NullVector(t, gen.Dense, rows).MdotV(m, x)) })
	step(&tr, "operand:VdotM", func() string { return d(gen.NullVector(t, gen.Dense, cols).VdotM(u, m)) })
	step(&tr, "receiver:MaddM", func() string { m.MaddM(m, other); return d(m) })
	step(&tr, "receiver:MmulS", func() string { m.MmulS(m, ad.NewScalar(t.T, 2)); return d(m) })
	step(&tr, "receiver:MdotM", func() string { m.MdotM(a, b); return d(m) })
	step(&tr, "receiver:Outer", func() string { m.Outer(u, x); return d(m) })
	step(&tr, "receiver:Set", func() string { m.Set(other); return d(m) })
	return tr
}

func useScalar(s ad.Scalar, t gen.ElemType) []useStep {
	var tr []useStep
	d := func(x any) string { return digest(x, t.IsInt) }
	one := ad.NewScalar(t.T, 1)
	step(&tr, "CloneScalar", func() string { return d(s.CloneScalar()) })
	step(&tr, "operand:Add", func() string { return d(ad.NewScalar(t.T, 0).Add(s, one)) })
	step(&tr, "operand:Mul", func() string { return d(ad.NewScalar(t.T, 0).Mul(s, s)) })
	step(&tr, "receiver:Add", func() string { s.Add(s, one); return d(s) })
	step(&tr, "receiver:Mul", func() string { s.Mul(s, one); return d(s) })
	step(&tr, "receiver:Set", func() string { s.Set(one); return d(s) })
	return tr
}

// compareUse returns the first step at which the two traces disagree.
func compareUse(ref, dec []useStep) *failure {
	for i := range ref {
		if i >= len(dec) {
			break
		}
		if ref[i].Out != dec[i].Out {
			kind := "value"
			if ref[i].Out == "panic" || dec[i].Out == "panic" {
				kind = "panic"
			}
			return &failure{Kind: "use:" + ref[i].Name + ":" + kind, Class: "any",
				Detail: fmt.Sprintf("used afterwards (%s) the decoded object behaves differently from the original: decoded %s, original %s", ref[i].Name, clip(dec[i].Out, 160), clip(ref[i].Out, 160))}
		}
	}
	return nil
}

// stripped removes what the format does not carry from a source snapshot
// (derivative slots), so that the reference object is what a perfect decoder
// would return.
func strippedVec(s snap.Vec, derivs bool) snap.Vec {
	r := snap.Vec{Dim: s.Dim, E: make([]snap.Elem, len(s.E))}
	for i, e := range s.E {
		if derivs {
			r.E[i] = formatElem(e)
		} else {
			r.E[i] = snap.Elem{F: e.F, I: e.I}
		}
	}
	return r
}

// formatElem is the element as the Real JSON format carries it: an all-zero
// gradient / Hessian block is not written, so the derivative metadata of the
// perfectly decoded scalar is: no derivatives at all -> order 0; gradient only
// -> order 1; any Hessian entry -> order 2 with the full gradient.
func formatElem(e snap.Elem) snap.Elem {
	g, h := false, false
	if e.Order >= 1 {
		for _, x := range e.D {
			if x != 0 {
				g = true
			}
		}
	}
	if e.Order >= 2 {
		for _, x := range e.H {
			if x != 0 {
				h = true
			}
		}
	}
	switch {
	case h:
		return e
	case g:
		return snap.Elem{F: e.F, I: e.I, Order: 1, N: e.N, D: e.D}
	}
	return snap.Elem{F: e.F, I: e.I}
}

func strippedMat(s snap.Mat, derivs bool) snap.Mat {
	v := strippedVec(snap.Vec{Dim: len(s.E), E: s.E}, derivs)
	return snap.Mat{R: s.R, C: s.C, E: v.E}
}

func useCheckVector(s0 snap.Vec, dec ad.Vector, t gen.ElemType, storage string, o cmpOpts, seed uint64) (f *failure) {
	if p := fw.Call(func() {
		ref := compactVector(strippedVec(s0, o.derivs), t, storage)
		f = compareUse(useVector(ref, t, seed), useVector(dec, t, seed))
	}); p != nil {
		return nil
	}
	return f
}

func useCheckMatrix(s0 snap.Mat, dec ad.Matrix, t gen.ElemType, storage string, o cmpOpts, seed uint64) (f *failure) {
	if p := fw.Call(func() {
		ref := compactMatrix(strippedMat(s0, o.derivs), t, storage)
		f = compareUse(useMatrix(ref, t, seed), useMatrix(dec, t, seed))
	}); p != nil {
		return nil
	}
	return f
}
