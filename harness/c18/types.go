// Package c18: serialisation round trips (JSON, table files, distribution
// configurations) and malformed-input handling of the decoders (DESIGN.md, C18).
package c18

import (
	"fmt"
	"math"
	"reflect"

	ad "github.com/pbenner/autodiff"

	"verifharness/internal/fw"
	"verifharness/internal/gen"
	"verifharness/internal/prng"
	"verifharness/internal/snap"
)

const prop = "C18"

type unmarshaler interface{ UnmarshalJSON([]byte) error }
type importer interface{ Import(string) error }
type exporter interface{ Export(string) error }

/* element values
 * -------------------------------------------------------------------------- */

var floatClasses = []string{"zero+", "zero-", "subnormal-min", "subnormal", "min-normal", "max", "rand-bits", "rand-bits", "rand-bits",
	"long-decimal", "long-decimal", "int-bound", "pow10", "small-int"}
var intClasses = []string{"zero", "one", "minus-one", "max", "min", "max-1", "min+1", "rand-full", "rand-full", "small", "beyond-2^53"}

// floatValue draws a finite value of the given class that is exactly
// representable in a binary float of `bits` bits.
func floatValue(bits int, class string, r *prng.Rand) float64 {
	sign := 1.0
	if r.Bool() {
		sign = -1
	}
	if bits == 32 {
		switch class {
		case "zero+":
			return 0
		case "zero-":
			return math.Copysign(0, -1)
		case "subnormal-min":
			return sign * float64(math.SmallestNonzeroFloat32)
		case "subnormal":
			return sign * float64(math.Float32frombits(uint32(r.Intn(1<<23-1))+1))
		case "min-normal":
			return sign * float64(math.Float32frombits(0x00800000))
		case "max":
			return sign * float64(math.MaxFloat32)
		case "rand-bits":
			for {
				b := uint32(r.Uint64())
				if (b>>23)&0xff == 0xff {
					continue
				}
				return float64(math.Float32frombits(b))
			}
		case "long-decimal":
			return sign * float64(float32(r.Float64()*math.Pow(10, float64(r.Range(-3, 3)))))
		case "int-bound":
			return sign * r.PickF([]float64{1 << 24, 1<<24 - 1, 1<<24 + 2, 1 << 31, 2147483520, 127, 128, 32767, 32768})
		case "pow10":
			return sign * float64(float32(math.Pow(10, float64(r.Range(-40, 38)))))
		default:
			return float64(r.Range(-100, 100))
		}
	}
	switch class {
	case "zero+":
		return 0
	case "zero-":
		return math.Copysign(0, -1)
	case "subnormal-min":
		return sign * math.SmallestNonzeroFloat64
	case "subnormal":
		return sign * math.Float64frombits(r.Uint64()&(1<<52-1)|1)
	case "min-normal":
		return sign * math.Float64frombits(0x0010000000000000)
	case "max":
		return sign * math.MaxFloat64
	case "rand-bits":
		for {
			b := r.Uint64()
			if (b>>52)&0x7ff == 0x7ff {
				continue
			}
			return math.Float64frombits(b)
		}
	case "long-decimal":
		return sign * r.Float64() * math.Pow(10, float64(r.Range(-3, 3)))
	case "int-bound":
		return sign * r.PickF([]float64{1 << 53, 1<<53 - 1, 1<<53 + 2, 1 << 63, 9223372036854774784, 1 << 31, 1<<31 - 1, 1 << 24, 1<<24 + 1})
	case "pow10":
		return sign * math.Pow(10, float64(r.Range(-320, 308)))
	default:
		return float64(r.Range(-100, 100))
	}
}

func intValue(bits int, class string, r *prng.Rand) int64 {
	min := int64(-1) << (bits - 1)
	max := -(min + 1)
	switch class {
	case "zero":
		return 0
	case "one":
		return 1
	case "minus-one":
		return -1
	case "max":
		return max
	case "min":
		return min
	case "max-1":
		return max - 1
	case "min+1":
		return min + 1
	case "rand-full":
		return int64(r.Uint64()) >> (64 - bits)
	case "beyond-2^53":
		if bits < 64 {
			return int64(r.Uint64()) >> (64 - bits)
		}
		v := int64(1)<<53 + 1 + int64(r.Intn(1<<20))*2
		if r.Bool() {
			v = -v
		}
		return v
	default:
		return int64(r.Range(-100, 100))
	}
}

// value is one generated element value.
type value struct {
	F     float64
	I     int64
	Class string
}

func drawValue(t gen.ElemType, r *prng.Rand) value {
	if t.IsInt {
		c := r.Pick(intClasses)
		v := intValue(t.Bits, c, r)
		return value{F: float64(v), I: v, Class: c}
	}
	c := r.Pick(floatClasses)
	f := floatValue(t.Bits, c, r)
	return value{F: f, Class: c}
}

func drawNonZero(t gen.ElemType, r *prng.Rand) value {
	for {
		v := drawValue(t, r)
		if (t.IsInt && v.I != 0) || (!t.IsInt && v.F != 0) {
			return v
		}
	}
}

func setValue(s ad.Scalar, t gen.ElemType, v value) {
	if t.IsInt {
		s.SetInt64(v.I)
	} else {
		s.SetFloat64(v.F)
	}
}

// derivative classes of magic scalars
var derivClasses = []string{"none", "none", "alloc-zero", "grad", "grad+hess", "zero-grad+hess", "grad+zero-hess"}

// setDerivs gives a magic scalar derivative slots of the named class; slot
// values come from the float classes of the storage type.
func setDerivs(s ad.Scalar, t gen.ElemType, class string, r *prng.Rand) {
	m, ok := s.(ad.MagicScalar)
	if !ok || class == "none" {
		return
	}
	n := r.Range(1, 3)
	slot := func() float64 {
		for {
			v := floatValue(t.Bits, r.Pick(floatClasses), r)
			if v != 0 {
				return v
			}
		}
	}
	switch class {
	case "alloc-zero":
		m.Alloc(n, r.Range(1, 2))
	case "grad":
		m.Alloc(n, 1)
		for i := 0; i < n; i++ {
			if i == 0 || r.Bool() {
				m.SetDerivative(i, slot())
			}
		}
	case "grad+hess", "zero-grad+hess", "grad+zero-hess":
		m.Alloc(n, 2)
		if class != "zero-grad+hess" {
			for i := 0; i < n; i++ {
				if i == 0 || r.Bool() {
					m.SetDerivative(i, slot())
				}
			}
		}
		if class != "grad+zero-hess" {
			for i := 0; i < n; i++ {
				for j := 0; j < n; j++ {
					if (i == 0 && j == 0) || r.Chance(0.6) {
						m.SetHessian(i, j, slot())
					}
				}
			}
		}
	}
}

// derivClassOf names the derivative content of an observed element.
func derivClassOf(e snap.Elem) string {
	if e.Order == 0 || e.N == 0 {
		return "none"
	}
	g, h := false, false
	for _, x := range e.D {
		if x != 0 {
			g = true
		}
	}
	for _, x := range e.H {
		if x != 0 {
			h = true
		}
	}
	switch {
	case g && h:
		return "grad+hess"
	case g && e.Order >= 2:
		return "grad+zero-hess"
	case g:
		return "grad"
	case h:
		return "zero-grad+hess"
	}
	return "alloc-zero"
}

// valueClassOf is the input class (computed from the observed value, not from
// the generator) that goes into signatures.
func valueClassOf(e snap.Elem, t gen.ElemType) string {
	if t.IsInt {
		min := int64(-1) << (t.Bits - 1)
		max := -(min + 1)
		switch {
		case e.I > 1<<53 || (e.I < -(1<<53) && e.I != min):
			return "int:beyond-2^53"
		case e.I == min:
			return "int:min"
		case e.I == max:
			return "int:max"
		}
		return "int:other"
	}
	a := math.Abs(e.F)
	minNormal, max := 0x1p-1022, math.MaxFloat64
	if t.Bits == 32 {
		minNormal, max = 0x1p-126, math.MaxFloat32
	}
	switch {
	case e.F == 0 && math.Signbit(e.F):
		return "float:-0"
	case e.F == 0:
		return "float:+0"
	case a < minNormal:
		return "float:subnormal"
	case a == max:
		return "float:max"
	}
	return "float:normal"
}

/* comparison (exact policy; bit-exact element values where asked)
 * -------------------------------------------------------------------------- */

type cmpOpts struct {
	isInt    bool
	bitExact bool // -0 and +0 are different values
	derivs   bool // the format carries derivative slots
}

func slotD(e snap.Elem, i int) float64 {
	if e.Order >= 1 && i < e.N && i < len(e.D) {
		return e.D[i]
	}
	return 0
}

func slotH(e snap.Elem, i, j int) float64 {
	if e.Order >= 2 && i < e.N && j < e.N && i*e.N+j < len(e.H) {
		return e.H[i*e.N+j]
	}
	return 0
}

// diffElem returns ("", "") or (kind, message); kind is value | deriv | hess.
func diffElem(a, b snap.Elem, o cmpOpts) (string, string) {
	if o.isInt {
		if a.I != b.I {
			return "value", fmt.Sprintf("value %d vs %d", a.I, b.I)
		}
		return "", ""
	}
	same := a.F == b.F
	if o.bitExact {
		same = math.Float64bits(a.F) == math.Float64bits(b.F)
	}
	if !same {
		return "value", fmt.Sprintf("value %v (%#x) vs %v (%#x)", a.F, math.Float64bits(a.F), b.F, math.Float64bits(b.F))
	}
	if !o.derivs {
		return "", ""
	}
	n := a.N
	if b.N > n {
		n = b.N
	}
	for i := 0; i < n; i++ {
		if x, y := slotD(a, i), slotD(b, i); x != y {
			return "deriv", fmt.Sprintf("deriv[%d] %v vs %v (N %d vs %d, order %d vs %d)", i, x, y, a.N, b.N, a.Order, b.Order)
		}
	}
	for i := 0; i < n; i++ {
		for j := 0; j < n; j++ {
			if x, y := slotH(a, i, j), slotH(b, i, j); x != y {
				return "hess", fmt.Sprintf("hess[%d,%d] %v vs %v (N %d vs %d, order %d vs %d)", i, j, x, y, a.N, b.N, a.Order, b.Order)
			}
		}
	}
	return "", ""
}

/* container construction by element type
 * -------------------------------------------------------------------------- */

var storages = []string{gen.Dense, gen.Sparse}

func typeName(x any) string {
	t := reflect.TypeOf(x)
	for t.Kind() == reflect.Ptr {
		t = t.Elem()
	}
	return t.Name()
}

// freshVector returns a decoding target (pointer implementing UnmarshalJSON
// and Import) of the given element type and storage, and an accessor of the
// decoded vector.
func freshVector(t gen.ElemType, storage string) (any, func() ad.Vector) {
	if storage == gen.Dense {
		p := reflect.New(reflect.TypeOf(ad.NullDenseVector(t.T, 0)))
		return p.Interface(), func() ad.Vector { return p.Elem().Interface().(ad.Vector) }
	}
	v := ad.NullSparseVector(t.T, 0)
	return v, func() ad.Vector { return v }
}

func freshMatrix(t gen.ElemType, storage string) (any, func() ad.Matrix) {
	m := gen.NullMatrix(t, storage, 0, 0)
	return m, func() ad.Matrix { return m }
}

var sparseConstCtor = map[string]func(ad.ConstVector) ad.ConstVector{
	"Int8":    func(v ad.ConstVector) ad.ConstVector { return ad.AsSparseConstInt8Vector(v) },
	"Int16":   func(v ad.ConstVector) ad.ConstVector { return ad.AsSparseConstInt16Vector(v) },
	"Int32":   func(v ad.ConstVector) ad.ConstVector { return ad.AsSparseConstInt32Vector(v) },
	"Int64":   func(v ad.ConstVector) ad.ConstVector { return ad.AsSparseConstInt64Vector(v) },
	"Int":     func(v ad.ConstVector) ad.ConstVector { return ad.AsSparseConstIntVector(v) },
	"Float32": func(v ad.ConstVector) ad.ConstVector { return ad.AsSparseConstFloat32Vector(v) },
	"Float64": func(v ad.ConstVector) ad.ConstVector { return ad.AsSparseConstFloat64Vector(v) },
}

// fillVector writes random values (zero pattern for sparse realism) into v.
func fillVector(v ad.Vector, t gen.ElemType, r *prng.Rand, pZero float64, derivs bool) {
	for i := 0; i < v.Dim(); i++ {
		if r.Chance(pZero) {
			continue
		}
		s := v.At(i)
		setValue(s, t, drawValue(t, r))
		if derivs && t.IsReal {
			setDerivs(s, t, r.Pick(derivClasses), r)
		}
	}
}

func fillMatrix(m ad.Matrix, t gen.ElemType, r *prng.Rand, pZero float64, derivs bool) {
	rows, cols := m.Dims()
	for i := 0; i < rows; i++ {
		for j := 0; j < cols; j++ {
			if r.Chance(pZero) {
				continue
			}
			s := m.At(i, j)
			setValue(s, t, drawValue(t, r))
			if derivs && t.IsReal {
				setDerivs(s, t, r.Pick(derivClasses), r)
			}
		}
	}
}

/* snapshots under panic capture
 * -------------------------------------------------------------------------- */

func snapVector(v ad.ConstVector) (s snap.Vec, p *fw.Panic) {
	p = fw.Call(func() { s = snap.Vector(v) })
	return
}

// snapConstVector reads a constant sparse vector through its typed accessors
// (ConstAt of the integer instantiations answers with a ConstFloat64, which
// is a read defect outside this property).
func snapConstVector(v ad.ConstVector, t gen.ElemType) (s snap.Vec, p *fw.Panic) {
	p = fw.Call(func() {
		n := v.Dim()
		s = snap.Vec{Dim: n, E: make([]snap.Elem, n)}
		for i := 0; i < n; i++ {
			if t.IsInt {
				x := v.Int64At(i)
				s.E[i] = snap.Elem{F: float64(x), I: x}
			} else {
				x := v.Float64At(i)
				s.E[i] = snap.Elem{F: x, I: int64(x)}
			}
		}
	})
	return
}

func snapMatrix(m ad.ConstMatrix) (s snap.Mat, p *fw.Panic) {
	p = fw.Call(func() { s = snap.Matrix(m) })
	return
}

func snapScalar(x ad.ConstScalar) (s snap.Elem, p *fw.Panic) {
	p = fw.Call(func() { s = snap.Scalar(x) })
	return
}

// nonzeroIndices walks the const iterator and returns the visited indices
// whose value is non-zero; ok=false when an index is out of range, repeated
// or out of order.
func vectorPattern(v ad.ConstVector) (idx []int, ok bool, p *fw.Panic) {
	ok = true
	p = fw.Call(func() {
		n := v.Dim()
		last := -1
		steps := 0
		for it := v.ConstIterator(); it.Ok(); it.Next() {
			steps++
			if steps > n+8 {
				ok = false
				return
			}
			i := it.Index()
			if i < 0 || i >= n || i <= last {
				ok = false
				return
			}
			last = i
			c := it.GetConst()
			if c.GetFloat64() != 0 || c.GetInt64() != 0 {
				idx = append(idx, i)
			}
		}
	})
	return
}

func matrixPattern(m ad.ConstMatrix) (idx [][2]int, ok bool, p *fw.Panic) {
	ok = true
	p = fw.Call(func() {
		rows, cols := m.Dims()
		seen := map[[2]int]bool{}
		steps := 0
		for it := m.ConstIterator(); it.Ok(); it.Next() {
			steps++
			if steps > rows*cols+8 {
				ok = false
				return
			}
			i, j := it.Index()
			if i < 0 || i >= rows || j < 0 || j >= cols || seen[[2]int{i, j}] {
				ok = false
				return
			}
			seen[[2]int{i, j}] = true
			c := it.GetConst()
			if c.GetFloat64() != 0 || c.GetInt64() != 0 {
				idx = append(idx, [2]int{i, j})
			}
		}
	})
	return
}

func sig(monitor string, parts ...string) string {
	s := prop + "|" + monitor
	for _, p := range parts {
		s += "|" + p
	}
	return s
}
