#!/bin/sh
# MANIFEST.setup_cmd: builds one worker binary per claimed property from files
# on disk (offline) and thereby warms the Go build cache (plain and -race).
set -e
cd "$(dirname "$0")"
export GOFLAGS=-mod=mod GOPROXY=off GOSUMDB=off GOTOOLCHAIN=local
mkdir -p .build evidence replays
cp /repo/go.sum harness/go.sum
for f in harness/cmd/vworker/reg_c*.go; do
  id=$(basename "$f" .go | sed 's/reg_c/C/')
  (cd harness && go build -tags "verif,p$id" -o "../.build/vworker-$id" ./cmd/vworker) || echo "build of $id failed"
done
if [ -f harness/cmd/vworker/reg_c17.go ]; then
  (cd harness && go build -tags "verif,pC17" -race -o ../.build/vworker-C17-race ./cmd/vworker) || echo "race build failed (C17 will report it)"
fi
python3-vt -c "import mpmath, numpy, scipy, jsonschema"
echo setup-ok
