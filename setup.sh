#!/bin/sh
# MANIFEST.setup_cmd: builds the worker binaries from files on disk (offline)
# and thereby warms the Go build cache (plain and -race).
set -e
cd "$(dirname "$0")"
export GOFLAGS=-mod=mod GOPROXY=off GOSUMDB=off GOTOOLCHAIN=local
mkdir -p .build evidence replays
cp /repo/go.sum harness/go.sum
(cd harness && go build -tags verif -o ../.build/vworker ./cmd/vworker)
(cd harness && go build -tags verif -race -o ../.build/vworker-race ./cmd/vworker) || echo "race build failed (C17 will report it)"
python3-vt -c "import mpmath, numpy, scipy, jsonschema" 
echo setup-ok
